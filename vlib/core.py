"""Shared machinery of the checks: building the Lean model and the Rust harness, running both on the
same protocol lines, comparing the canonical answers, evidence and verdicts."""

import json, os, re, subprocess, sys, time, hashlib

VERIF = os.path.dirname(os.path.dirname(os.path.abspath(__file__)))
CACHE = os.path.join(VERIF, '.cache')
WORK = os.path.join(CACHE, 'work')
LEAN = os.path.join(VERIF, 'lean')
HARNESS = os.path.join(VERIF, 'harness')
DRIVER = os.path.join(LEAN, '.lake', 'build', 'bin', 'driver')
HARNESS_BIN = os.path.join(CACHE, 'target', 'debug', 'epsh')
ALLOWED_AXIOMS = {'propext', 'Classical.choice', 'Quot.sound'}

sys.path.insert(0, os.path.join(VERIF, 'gen'))


def log(*a):
    print(*a, file=sys.stderr, flush=True)


def env_offline():
    e = dict(os.environ)
    e['CARGO_NET_OFFLINE'] = 'true'
    return e


def run(cmd, cwd=None, inp=None, timeout=3600, env=None):
    p = subprocess.run(cmd, cwd=cwd, input=inp, capture_output=True, text=True, timeout=timeout, env=env or env_offline())
    return p.returncode, p.stdout, p.stderr


# ------------------------------------------------------------------------------------------------
# Lean side

def lean_build(targets):
    """lake build of the given targets; returns (ok, output)"""
    os.makedirs(WORK, exist_ok=True)
    rc, out, err = run(['lake', 'build'] + targets, cwd=LEAN, timeout=3600)
    return rc == 0, out + err


def lean_audit(prop):
    """Print the axioms of every theorem of Props/<prop>.lean. Returns (theorems, bad) where theorems maps
    name -> sorted axiom list (or None if the theorem is missing) and bad lists offending theorems."""
    src = open(os.path.join(LEAN, 'EpsModel', 'Props', prop + '.lean')).read()
    names = re.findall(r'^theorem\s+([A-Za-z0-9_.\']+)', src, re.M)
    ns = re.search(r'^namespace\s+(\S+)', src, re.M)
    prefix = (ns.group(1) + '.') if ns else ''
    audit = 'import EpsModel.Props.%s\n' % prop + ''.join('#print axioms %s%s\n' % (prefix, n) for n in names)
    path = os.path.join(WORK, 'Audit_%s.lean' % prop)
    open(path, 'w').write(audit)
    rc, out, err = run(['lake', 'env', 'lean', path], cwd=LEAN)
    text = out + err
    theorems, bad = {}, []
    for n in names:
        full = prefix + n
        m = re.search(r"'%s' depends on axioms: \[([^\]]*)\]" % re.escape(full), text, re.S)
        if m:
            ax = sorted(a.strip() for a in m.group(1).replace('\n', ' ').split(',') if a.strip())
        elif re.search(r"'%s' does not depend on any axioms" % re.escape(full), text):
            ax = []
        else:
            ax = None
        theorems[full] = ax
        if ax is None or any(a not in ALLOWED_AXIOMS for a in ax):
            bad.append(full)
    # textual scan for forbidden constructs in the whole library
    forbidden = []
    for root, _, files in os.walk(os.path.join(LEAN, 'EpsModel')):
        for f in files:
            if not f.endswith('.lean'): continue
            txt = open(os.path.join(root, f)).read()
            txt = re.sub(r'/-.*?-/', '', txt, flags=re.S)
            txt = re.sub(r'--.*', '', txt)
            for pat in [r'\bsorry\b', r'\badmit\b', r'^\s*axiom\s', r'native_decide', r'bv_decide', r'implemented_by', r'maxHeartbeats\s+0\b']:
                if re.search(pat, txt, re.M):
                    forbidden.append('%s: %s' % (f, pat))
    return theorems, bad, forbidden, rc, text


# ------------------------------------------------------------------------------------------------
# Rust side

def tier_params(tier):
    return (44, 3, 12) if tier == 'quick' else (110, 4, 28)


CORPUS_SEED = 777


def build_universe(seed, tier):
    """the seeded universe, followed by the fixed corpus universe (definitions prefixed with K), whose
    types are the ones of the golden corpus (C06)"""
    from universe import Universe, stress_defs, twin_defs, Adt, Seq, Array, Sum, Str, Phantom, near_miss_mutants, Prim, Tuple, Def, Range
    n_types, depth, n_defs = tier_params(tier)
    u = Universe(seed, n_types=n_types, max_depth=depth, n_defs=n_defs).build()
    c = Universe(CORPUS_SEED, n_types=40, max_depth=3, n_defs=10, prefix='K').build()
    sd = stress_defs('K')
    st = [Adt(d, [], []) for d in sd if not d.tparams and not d.cparams]
    byname = {d.name: d for d in sd}
    st += [Seq('vec', st[0]), Seq('vec', st[1]), Array(st[2], 2), Seq('bs', st[4]), Sum('opt', [st[5]]), Seq('vec', st[7])]
    # the generic wrapper KD5<A> { s: String, a: A, t: u8 } around borrowed slices of over-aligned / tag-aligned items
    st += [Adt(byname['KD5'], [Seq('vec', Adt(byname['KZE2'], [], []))], []), Adt(byname['KD5'], [Seq('vec', Adt(byname['KZ8'], [], []))], []),
           Adt(byname['KD5'], [Seq('bs', Adt(byname['KZ6'], [], []))], [])]
    # round-4 stress instances: deep items of zero bytes, zero-sized zero-copy items with a unit > 1 (alone and behind a
    # string), newtypes of zero-copy arrays in sequences, two const parameters, a 128-bit const parameter
    z0 = Array(Prim('u64'), 0)
    st += [Seq('vec', Array(Str(), 0)), Seq('bs', Array(Seq('vec', Prim('u8')), 0)), Seq('vec', Adt(byname['KU0'], [], [])),
           Seq('vec', z0), Adt(byname['KD5'], [Seq('vec', z0)], []), Adt(byname['KD5'], [Seq('vec', Array(Str(), 0))], []),
           Seq('vec', Adt(byname['KN1'], [], [])), Array(Adt(byname['KN1'], [], []), 3), Seq('bs', Adt(byname['KN1'], [], [])),
           Adt(byname['KC2'], [], [7, 300]), Adt(byname['KC2'], [], [44, 7]),
           Adt(byname['KC3'], [], [0x0123456789abcdef]), Adt(byname['KC3'], [], [(1 << 64) + 0x0123456789abcdef])]
    # round-5 stress instances
    for t in st:
        if isinstance(t, Adt) and t.d.name in ('KZ9', 'KD6'):
            t.known = ('C01', 'C02', 'C03', 'C04', 'C06', 'C07', 'C14', 'C18')     # alignment 128: beyond what the loaders support
    st += [Seq('vec', Adt(byname['KZ10'], [], [])), Adt(byname['KD5'], [Seq('vec', Adt(byname['KZ10'], [], []))], [])]
    st += [Seq('vec', Adt(byname['KZU'], [], [])), Array(Adt(byname['KZU'], [], []), 3), Seq('bs', Adt(byname['KZV'], [], [])),
           Adt(byname['KD5'], [Seq('vec', Adt(byname['KZV'], [], []))], [])]
    # round 6: very long type names (32 levels of Vec<Option<..>>: > 1 KiB; a ControlFlow tree of depth 7: > 4 KiB; four levels
    # of 12-tuples: > 64 KiB); a 16384-aligned structure behind a byte vector; zero-byte items that are not zero-sized
    def nest(t, n):
        for k in range(n):
            t = Sum('opt', [t]) if k % 2 == 0 else Seq('vec', t)
        return t
    def cftree(d):
        return Prim('u8') if d == 0 else Sum('cf', [cftree(d - 1), cftree(d - 1)])
    t12 = Prim('u8')
    for _ in range(4): t12 = Tuple(t12, 12)
    z11 = Adt(byname['KZ11'], [], [])
    kd5z = Adt(byname['KD5'], [Seq('vec', z11)], [])
    for t in (z11, kd5z):
        t.known = ('C01', 'C02', 'C07', 'C09', 'C12')
    unit1 = Array(Prim('unit'), 1)
    # (the 12^4-tuple itself, as a value type, makes `serialize_zero` of an unoptimized build a 40 MB function with an 8 MB
    # frame — every `max_size_of` of its 20736 leaves is `#[inline(always)]` — so it is used as a marker only)
    pt12 = Phantom(t12)
    pt12.known = ('C01', 'C02', 'C06', 'C10')
    st += [nest(Prim('u16'), 32), cftree(7), pt12, z11, kd5z,
           Adt(byname['KP2'], [Seq('vec', Adt(byname['KW1'], [unit1], [])), Str()], [])]
    # round 6: big items and big files. `heavy` types get only their empty value from the generic value generator; the `big`
    # families build the large values explicitly (an item above 1 MiB; two blocks above 64 KiB, the second starting beyond
    # byte 65536; a file above 2 MiB)
    hv = Seq('vec', Array(Prim('u64'), 131073)); hv.heavy = True
    st += [hv, Adt(byname['KP2'], [Seq('vec', Prim('u64')), Seq('vec', Prim('u8'))], []), Seq('vec', Prim('u64'))]
    # round 7: const parameters before type parameters; a byte-aligned zero-copy type whose unit (4) is larger than its
    # alignment (1), alone, behind a string in a deep structure (read through deserialize_eps_zero at any position), in a
    # vector; a marker whose type name is longer than 65 535 bytes and mostly made of two-byte characters
    st += [Adt(byname['KCF1'], [Seq('vec', Prim('u16'))], [3, 1]), Adt(byname['KCF1'], [Str()], [0, 0]), Adt(byname['KCF2'], [Str()], [7]),
           Adt(byname['KCF3'], [], [2])]
    r4 = Tuple(Range('t', Array(Prim('u8'), 4)), 2)
    st += [r4, Adt(byname['KD5'], [r4], []), Seq('vec', r4), Adt(byname['KD5'], [Range('ti', Array(Prim('u8'), 2))], [])]
    # (byte 65 535 of the name of the second one falls inside a character, of the first one between two characters)
    for na in ([d for d in sd if d.name.startswith('K\u00e9')][0], [d for d in sd if d.name.startswith('KX\u00e9')][0]):
        t3 = Adt(na, [], [])
        for _ in range(3): t3 = Tuple(t3, 12)
        pt3 = Phantom(t3)
        pt3.known = ('C01', 'C02', 'C06')       # (names of half a megabyte: exercised where the length of the name matters)
        st += [pt3]
    # round 8: the witnesses of KF-C07-1 (unit 3) belong to format 1.1 as well: their bytes are pinned in the corpus, behind
    # strings of several lengths (the padding formula is exercised at positions where the bit formula and modular arithmetic
    # differ); zero-copy structures whose `repr(C)` is not the first `repr` attribute
    def wit():
        r = Range('t', Array(Prim('u8'), 3)); r.known = ('C06', 'C07', 'C12', 'C18'); return r
    # sums whose payload is written as zero bytes, alone (the tag is the last byte of the stream) and followed by data
    un = Prim('unit')
    st += [Sum('bnd', [un]), Sum('opt', [un]), Sum('cf', [un, un]), Sum('bnd', [Phantom(Prim('u8'))]), Sum('bnd', [Array(Prim('u64'), 0)]),
           Adt(byname['KD5'], [Sum('bnd', [un])], []), Seq('vec', Sum('bnd', [un])), Sum('opt', [Sum('bnd', [un])])]
    st += [wit(), Seq('vec', wit()), Adt(byname['KD5'], [Seq('vec', wit())], []), Adt(byname['KRC1'], [], []), Seq('vec', Adt(byname['KRC2'], [], []))]
    # round 9: vectors of zero-sized sums (every item carries a tag), alone and followed by data
    s1, s2 = Adt(byname['KSV1'], [], []), Adt(byname['KSV2'], [], [])
    st += [Seq('vec', s1), Seq('bs', s2), Adt(byname['KD5'], [Seq('vec', s1)], []), Array(s1, 3)]
    # round 6: twins (same identifier and same `type_name`, different definitions), used one after the other in one process
    tw = twin_defs('K')
    sd = sd + tw
    for d in tw:
        a = Adt(d, [], [])
        st += [a, Seq('vec', Adt(d, [], []))]
    # round 10: arrays of sums (a tag per item: a foreign tag in an item that is not the last one), and 70 levels of vectors
    # (a schema deeper than 64 levels)
    o8 = Sum('opt', [Prim('u8')])
    st += [Array(o8, 3), Array(Sum('bnd', [Prim('u16')]), 3), Array(Sum('cf', [Prim('u8'), Str()]), 2), Seq('vec', Array(o8, 2)),
           Adt(byname['KD5'], [Array(Sum('opt', [Str()]), 3)], []), Array(Array(o8, 2), 2)]
    n70 = Prim('u64')
    for _ in range(70): n70 = Seq('vec', n70)
    n70.heavy = True        # (the generic value generator branches at every level: only the explicit value of `big_values`)
    st += [n70]
    u.slice_elems = list(u.slice_elems) + [Adt(byname['KZU'], [], []), Adt(byname['KZV'], [], []), Adt(byname['KZ10'], [], []), Adt(byname['KZE2'], [], []), Adt(byname['KZ8'], [], [])]
    u.corpus_start = len(u.types)
    u.corpus_rust = [t.rust() for t in c.types] + [t.rust() for t in st]
    seen = set(t.rust() for t in u.types)
    u.defs = u.defs + c.defs + sd
    for t in list(c.types) + st:
        if t.rust() not in seen:
            seen.add(t.rust()); u.types.append(t)
    # the grammar universe (C05): more definitions, biased to parameterised ones, several instantiations each
    g = Universe(seed * 7919 + 13, n_types=0, max_depth=2, n_defs=(14 if tier == 'quick' else 48), prefix='G')
    for _ in range(g.n_defs):
        g.defs.append(g.rand_def())
    u.defs = u.defs + g.defs
    for d in g.defs:
        for _ in range(3 if (d.tparams or d.cparams) else 1):
            t = g.inst(d)
            if t is not None and t.rust() not in seen:
                seen.add(t.rust()); u.types.append(t)
    # near-miss mutants (C04): for every registered instance of a definition without type parameters
    counter = [0]
    u.mutant_pairs = []      # (index of the original, index of the mutant, kind)
    done = set()
    base_n = len(u.types)
    for i in range(base_n):
        t = u.types[i]
        if not isinstance(t, Adt) or t.d.tparams or t.d.module or t.d.block is not None or t.d.name in done:
            continue
        done.add(t.d.name)
        for kind, md in near_miss_mutants(t.d, counter):
            u.defs.append(md)
            mt = Adt(md, [], list(t.cargs))
            u.types.append(mt)
            u.mutant_pairs.append((i, len(u.types) - 1, kind))
        if t.d.cparams:
            # const value changed: another instance of the same definition
            c0 = t.d.cparams[0]
            alt = list(t.cargs); alt[0] = (alt[0] + 1) % (2 if c0['prim'] == 'bool' else 3) if c0['prim'] in ('bool', 'usize') else (0x42 if alt[0] != 0x42 else 0x43)
            at = Adt(t.d, [], alt)
            if at.rust() not in seen:
                seen.add(at.rust()); u.types.append(at)
                u.mutant_pairs.append((i, len(u.types) - 1, 'const-value-changed'))
    # the two recorded hash findings, as concrete pairs (see known_findings.json)
    ca = Def('a', False, 'none', [], 1, [], [{'name': 'N', 'prim': 'u16', 'default': None}], [('a', 'named', [('b', ('ty', Tuple(Prim('u8'), 3)))])])
    cb = Def('S', False, 'none', [], 1, [], [], [('S', 'named', [('N', ('ty', Tuple(Prim('u8'), 1))), ('a', ('ty', Prim('u8'))), ('b', ('ty', Prim('u8')))])])
    ca.module, cb.module = 'colla', 'collb'
    u.defs += [ca, cb]
    ta, tb = Adt(ca, [], [0xff53]), Adt(cb, [], [])
    u.types += [ta, tb]; seen.update([ta.rust(), tb.rust()])
    u.mutant_pairs.append((len(u.types) - 2, len(u.types) - 1, 'known-collision'))
    for (a, b, kind) in list(u.mutant_pairs):
        if kind == 'repr-align-added' and not u.types[a].d.is_enum and u.types[a].size() > 0:
            x, y = Sum('bnd', [Seq('vec', u.types[a])]), Sum('bnd', [Seq('vec', u.types[b])])
            u.types += [x, y]; seen.update([x.rust(), y.rust()])
            u.mutant_pairs.append((len(u.types) - 2, len(u.types) - 1, 'known-bound-align-hole'))
            break
    # built-in near misses: sequence kind, array length, tuple arity, element type
    def add(t):
        if t.rust() not in seen:
            seen.add(t.rust()); u.types.append(t)
        return [x.rust() for x in u.types].index(t.rust())
    for p in ('u32', 'u64'):
        e = Prim(p)
        ids = [add(Seq('vec', e)), add(Seq('bs', e)), add(Array(e, 3)), add(Array(e, 4)), add(Tuple(e, 3)), add(Tuple(e, 4)),
               add(Seq('vec', Prim('i' + p[1:])))]
        kinds = ['vec-vs-boxed-slice', 'vec-vs-array', 'array-length', 'array-vs-tuple', 'tuple-arity', 'element-retyped']
        prs = [(ids[0], ids[1]), (ids[0], ids[2]), (ids[2], ids[3]), (ids[2], ids[4]), (ids[4], ids[5]), (ids[0], ids[6])]
        for (a, b), k in zip(prs, kinds):
            u.mutant_pairs.append((a, b, k))
    # arrays whose items own heap memory in both modes (partially built arrays must be released on error and on panic)
    add(Array(Seq('bs', Str()), 3)); add(Array(Seq('vec', Seq('vec', Prim('u16'))), 2))
    # const parameters: the two KC2 instances differ in both values (A, B) = (7, 300) / (44, 7); the two KC3 instances
    # differ only above bit 63 of a 128-bit const value
    rix = {t.rust(): k for k, t in enumerate(u.types)}
    for a, b, kind in (('KC2<7, 300>', 'KC2<44, 7>', 'const-values-changed'), ('KC3<81985529216486895>', 'KC3<18528729602926038511>', 'const-high-bits-changed')):
        if a in rix and b in rix:
            u.mutant_pairs.append((rix[a], rix[b], kind))
    # witnesses of the recorded finding KF-C07-1 / KF-C12-1: an alignment unit that is not a power of two (3)
    w1 = Range('t', Array(Prim('u8'), 3)); w2 = Seq('vec', Range('t', Array(Prim('u8'), 3)))
    for w in (w1, w2):
        w.known = ('C06', 'C07', 'C12', 'C18')
        if w.rust() not in seen:
            seen.add(w.rust()); u.types.append(w)
    # alignments above 64 are beyond what the loaders support: such types (KZ9, KD6 and their near-miss mutants) are
    # exercised only by the checks that do not load files or place buffers at 64-aligned addresses
    for t in u.types:
        for x in t.walk():
            if isinstance(x, Adt) and x.d.align_attr > 64 and not x.known:
                x.known = ('C01', 'C02', 'C07', 'C09', 'C12') if x.d.align_attr > 128 else ('C01', 'C02', 'C03', 'C04', 'C06', 'C07', 'C09', 'C12', 'C14', 'C18')
    # generic arguments: phantom data of different types; all instances of one generic definition, pairwise
    ph = [add(Phantom(Prim('u8'))), add(Phantom(Prim('i8'))), add(Phantom(Str())), add(Seq('vec', Phantom(Prim('u8')))), add(Seq('vec', Phantom(Str())))]
    for (a, b) in ((ph[0], ph[1]), (ph[0], ph[2]), (ph[3], ph[4])):
        u.mutant_pairs.append((a, b, 'phantom-argument-changed'))
    have = set((a, b) for (a, b, _) in u.mutant_pairs)
    by_def = {}
    for i, t in enumerate(u.types):
        if isinstance(t, Adt) and (t.d.tparams or t.d.cparams):
            by_def.setdefault(t.d.path(), []).append(i)
    for path, ids in by_def.items():
        for x in range(len(ids)):
            for y in range(x + 1, len(ids)):
                if (ids[x], ids[y]) not in have and (ids[y], ids[x]) not in have:
                    u.mutant_pairs.append((ids[x], ids[y], 'generic-argument-changed'))
    return u


def point_at_repo():
    """The crates under test are path dependencies on /repo. For background sweeps that must not be disturbed by
    edits of /repo, VERIF_REPO may name a copy: the manifests of this checkout of /verif are then rewritten to it
    (the registered commands never set it)."""
    repo = os.environ.get('VERIF_REPO', '/repo').rstrip('/')
    for f in (os.path.join(HARNESS, 'Cargo.toml'), os.path.join(VERIF, 'probes', 'Cargo.toml')):
        txt = open(f).read()
        new = re.sub(r'path = "[^"]*/(epserde(?:-derive)?)"', lambda m: 'path = "%s/%s"' % (repo, m.group(1)), txt)
        if new != txt:
            open(f, 'w').write(new)


def harness_build(u):
    """write the generated module and rebuild the harness against /repo's current working tree"""
    point_at_repo()
    os.makedirs(WORK, exist_ok=True)
    src = u.rust_source()
    path = os.path.join(HARNESS, 'src', 'gen_types.rs')
    old = open(path).read() if os.path.exists(path) else None
    if old != src:
        open(path, 'w').write(src)
    rc, out, err = run(['cargo', 'build', '--offline'], cwd=HARNESS, timeout=3600)
    return rc == 0, out + err


def harness_names():
    rc, out, err = run([HARNESS_BIN, 'names'])
    if rc != 0:
        raise RuntimeError('harness names failed: ' + err)
    return [l for l in out.splitlines() if l.startswith('name ') or l.startswith('sname ')]


HARNESS_BIN_NOMMAP = os.path.join(CACHE, 'target-nommap', 'debug', 'epsh')


def harness_build_nommap():
    """the same harness (same generated module) against epserde built without the mmap feature"""
    e = env_offline()
    e['CARGO_TARGET_DIR'] = os.path.join(CACHE, 'target-nommap')
    rc, out, err = run(['cargo', 'build', '--offline', '--no-default-features'], cwd=HARNESS, timeout=3600, env=e)
    return rc == 0, out + err


def run_harness(lines, extra_args=None, binary=None):
    """run the harness on protocol lines; returns the list of answer lines (one per answering line).
    If the process dies (abort/segfault), the lines answered so far are returned followed by '<died rc>'."""
    inp = '\n'.join(lines) + '\n'
    try:
        p = subprocess.run([binary or HARNESS_BIN] + (extra_args or []), input=inp, capture_output=True, text=True, timeout=int(os.environ.get('VERIF_RUN_TIMEOUT', '3000')))
    except subprocess.TimeoutExpired as e:
        out = (e.stdout.decode('utf-8', 'replace') if isinstance(e.stdout, bytes) else (e.stdout or '')).splitlines()
        out.append('<died rc=-1 timeout: the implementation did not answer in time (a call that never returns)>')
        return out
    out = p.stdout.splitlines()
    if p.returncode != 0:
        out.append('<died rc=%d %s>' % (p.returncode, p.stderr.strip()[-200:]))
    return out


def memcheck(header, lines, budget=500, seed=1):
    """Run a sample of protocol lines through the harness under valgrind memcheck (invalid reads / writes / frees,
    definitely lost blocks; undefined-value errors are off: padding bytes of zero-copy values are uninitialised by
    design and are printed). Returns (n_lines_run, None) or (n, {'lines': minimal failing lines, 'report': text}).
    Supports the search for a failing input only."""
    import random, shutil
    if not shutil.which('valgrind') or not lines:
        return 0, None
    rng = random.Random(seed)
    sample = lines if len(lines) <= budget else [lines[k] for k in sorted(rng.sample(range(len(lines)), budget))]
    def run_vg(ls):
        inp = '\n'.join(header + ls) + '\n'
        p = subprocess.run(['valgrind', '-q', '--error-exitcode=99', '--undef-value-errors=no', '--leak-check=full',
                            '--errors-for-leak-kinds=definite', HARNESS_BIN], input=inp, capture_output=True, text=True, timeout=3600)
        return p.returncode, p.stderr
    rc, err = run_vg(sample)
    if rc != 99:
        return len(sample), None
    # bisect to a small failing subset (the harness has no state across lines besides the registered types)
    cur = sample
    while len(cur) > 1:
        half = len(cur) // 2
        a, b = cur[:half], cur[half:]
        ra, ea = run_vg(a)
        if ra == 99:
            cur, err = a, ea; continue
        rb, eb = run_vg(b)
        if rb == 99:
            cur, err = b, eb; continue
        break      # only the combination fails: report it as it is
    report = '\n'.join(l for l in err.splitlines() if l.startswith('==') )[-3000:]
    return len(sample), {'lines': cur[:20], 'report': report}


def run_model(names, lines):
    inp = '\n'.join(names + lines) + '\n'
    try:
        p = subprocess.run([DRIVER], input=inp, capture_output=True, text=True, timeout=int(os.environ.get('VERIF_RUN_TIMEOUT', '3000')))
    except subprocess.TimeoutExpired as e:
        out = (e.stdout.decode('utf-8', 'replace') if isinstance(e.stdout, bytes) else (e.stdout or '')).splitlines()
        out.append('<died rc=-1 timeout: the model driver did not finish in time>')
        return out
    out = p.stdout.splitlines()
    if p.returncode != 0:
        out.append('<died rc=%d %s>' % (p.returncode, p.stderr.strip()[-200:]))
    return out


# ------------------------------------------------------------------------------------------------
# canonical answers

def hex_match(impl_hex, model_hex):
    """model hex may contain '..' wildcards (interior padding of zero-copy structures)"""
    if len(impl_hex) != len(model_hex):
        return False
    if '.' not in model_hex:
        return impl_hex == model_hex
    for k in range(0, len(model_hex), 2):
        m = model_hex[k:k + 2]
        if m != '..' and m != impl_hex[k:k + 2]:
            return False
    return True


def parse_case_answer(line):
    """'S ... | F ... | E ...' -> dict with parts, or None"""
    parts = line.split(' | ')
    if len(parts) != 3 or not parts[0].startswith('S '):
        return None
    d = {}
    s = parts[0][2:].split(' ')
    d['S'] = {'status': s[0], 'count': int(s[1]) if s[0] == 'ok' else None, 'hex': s[2] if s[0] == 'ok' and len(s) > 2 else ''}
    for key, part in (('F', parts[1]), ('E', parts[2])):
        body = part[2:]
        toks = body.split(' ')
        if toks[0] == 'ok':
            d[key] = {'status': 'ok', 'val': toks[1], 'consumed': toks[2] if len(toks) > 2 else None}
        elif toks[0] == 'err':
            d[key] = {'status': 'err', 'kind': toks[1], 'payload': toks[2] if len(toks) > 2 else None}
        else:
            d[key] = {'status': toks[0]}
    return d


def schema_canon(ans):
    """impl: 'schema ok hex f,o,s,a,ty;... csv=..'; model: 'schema ok hex d,o,s,a;...' -> (hex, [(depth,o,s,a)])"""
    p = ans.split(' ')
    if len(p) < 3 or p[1] != 'ok':
        return None
    rows = []
    for r in (p[3].split(';') if len(p) > 3 else []):
        if not r: continue
        f = r.split(',')
        if f[0].isdigit():
            d = int(f[0])
        else:
            d = 0 if f[0] == 'PADDING' else len(f[0].split('.'))
        rows.append((d, int(f[1]), int(f[2]), int(f[3])))
    return p[2], rows


def answers_agree(impl, model):
    """compare one impl answer line with one model answer line"""
    if impl == model or model == 'ANY':
        return True
    if model.startswith('derive '):
        # the model answers whether its derive of the definition is the registered type; the implementation's
        # answer (type names) is judged by the oracle
        return model.startswith('derive same') and impl.startswith('derive ')
    if impl.startswith('schema ') and model.startswith('schema '):
        a, b = schema_canon(impl), schema_canon(model)
        if a is None or b is None:
            return False
        return hex_match(a[0], b[0]) and a[1] == b[1]
    a, b = parse_case_answer(impl), parse_case_answer(model)
    if a is None or b is None:
        # generic token-wise comparison; hex tokens of the model may contain '..' wildcards
        ta, tb = impl.split(' '), model.split(' ')
        if len(ta) != len(tb):
            return False
        for x, y in zip(ta, tb):
            if x == y or y == '*':
                continue
            if y.startswith('<=') and x.isdigit() and y[2:].isdigit() and int(x) <= int(y[2:]):
                continue          # a bound given by the model (allocator calls)
            for sep in (':', '='):
                if sep in x and sep in y and x.split(sep, 1)[0] == y.split(sep, 1)[0]:
                    x, y = x.split(sep, 1)[1], y.split(sep, 1)[1]
                    break
            if y == '*':
                continue
            if '..' in y and hex_match(x, y):
                continue
            return False
        return True
    if a['S']['status'] != b['S']['status'] or a['S']['count'] != b['S']['count']:
        return False
    if not hex_match(a['S']['hex'], b['S']['hex']):
        return False
    return a['F'] == b['F'] and a['E'] == b['E']


BORROW_RE = re.compile(r's@(\d+|-)"|&@(\d+|-)|@(\d+|-)\[')


def erase_borrows(ev):
    """the value an ε-copy result describes: drop the borrow annotations"""
    ev = re.sub(r's@(\d+|-)"', 's"', ev)
    ev = re.sub(r'&@(\d+|-)', '', ev)
    ev = re.sub(r'@(\d+|-)\[', '[', ev)
    return ev


def borrows_of(ev):
    """list of (kind, offset) of the borrowed nodes of an ε-copy result string"""
    out = []
    for m in re.finditer(r's@(\d+|-)"|&@(\d+|-)|@(\d+|-)\[', ev):
        if m.group(1) is not None: out.append(('str', m.group(1)))
        elif m.group(2) is not None: out.append(('ref', m.group(2)))
        else: out.append(('slice', m.group(3)))
    return out


# ------------------------------------------------------------------------------------------------
# known findings, verdicts, evidence

def load_known():
    p = os.path.join(VERIF, 'known_findings.json')
    if not os.path.exists(p):
        return {'findings': [], 'fixed': []}
    return json.load(open(p))


def match_known(prop, sig):
    """sig: dict describing a failure; a finding matches if property equals and every key of its signature
    matches (regex, full match) the corresponding key of sig"""
    for f in load_known()['findings']:
        if f['property'] != prop:
            continue
        ok = True
        for k, pat in f['signature'].items():
            if not re.fullmatch(pat, str(sig.get(k, '')), re.S):
                ok = False; break
        if ok:
            return f
    return None


def write_replay(prop, seed, n, payload):
    d = os.path.join(VERIF, 'replays')
    os.makedirs(d, exist_ok=True)
    path = os.path.join(d, '%s-%s-%d.json' % (prop, seed, n))
    json.dump(payload, open(path, 'w'), indent=1)
    return path


def write_evidence(prop, tier, seed, coverage, wall_s, violations, assumptions):
    d = os.path.join(VERIF, 'evidence')
    os.makedirs(d, exist_ok=True)
    ev = {'property_id': prop, 'tier': tier, 'seed': seed, 'level': 'proof', 'coverage': coverage,
          'assumptions': assumptions, 'wall_s': round(wall_s, 2), 'violations': violations}
    json.dump(ev, open(os.path.join(d, prop + '.json'), 'w'), indent=1)


TRUSTED_BASE = [
    'Lean 4.33 kernel; axioms limited to propext, Classical.choice, Quot.sound (audited per theorem with #print axioms)',
    'the hand-written Lean model is tied to /repo by differential testing only (generator-bounded)',
    'generator, Rust harness (Show/FromTerm impls, canonical printing), Lean driver parser, comparison script',
    'rustc layout of zero-copy types (modelled, validated per run by the layout op)',
    'core::any::type_name is an input of the model',
    'std Vec/String/read_exact/write_all, little-endian 64-bit target, debug-profile overflow semantics',
]
