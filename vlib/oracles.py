"""Per-property correspondence runs and property oracles (evaluated on the implementation's answers)."""

import json, os, re, sys
from core import *
import core
import cases as casegen


def shape_of(term):
    s = re.sub(r'adt\(([0-9a-f]*),', 'adt(_,', term)
    s = re.sub(r'[0-9a-f]{2,}(?=[:{;])', '_', s)
    s = re.sub(r'\d+', 'n', s)
    return s[:160]


def outcome_class(ans):
    a = parse_case_answer(ans)
    if a is None:
        return ans.split(' ')[0] if ans else 'none'
    def oc(x):
        if x['status'] == 'err': return 'err-' + x['kind']
        return x['status']
    return '%s/%s/%s' % (a['S']['status'], oc(a['F']), oc(a['E']))


MEMCHECK_PROPS = {'C01', 'C02', 'C03', 'C13', 'C14', 'C16'}


def hide_known_witnesses(cs, u, prop):
    """witness types of recorded findings are exercised only by the checks of the properties they violate"""
    def hidden(m):
        if m.get('kind') in ('type', 'stype'): return False
        for key in ('ti', 'tj'):
            k = m.get(key)
            if k is not None and k < len(u.types):
                if any(x.known and prop not in x.known for x in u.types[k].walk()): return True
        return False
    keep = [k for k, m in enumerate(cs.meta) if not hidden(m)]
    cs.lines = [cs.lines[k] for k in keep]; cs.meta = [cs.meta[k] for k in keep]


class CaseSpec:
    """A property decided through the line protocol: generate cases, run implementation and model,
    compare, evaluate the oracle on the implementation's answers."""
    trusted_extra = []
    assumptions = []

    def __init__(self, oracle, rule, assumptions=None, trusted_extra=None):
        self.oracle = oracle
        self.rule = rule
        self.assumptions = assumptions or []
        self.trusted_extra = trusted_extra or []

    def run(self, prop, tier, seed, replay=None):
        u = build_universe(seed, tier)
        ok, out = harness_build(u)
        failures, disagreements = [], []
        if not ok:
            # the implementation (or the hooks) no longer builds with the generated universe
            disagreements.append(({'op': 'build', 'type_shape': '', 'outcome': 'build-failed'},
                                  {'what': 'cargo build of the harness against /repo failed', 'output': out[-3000:]}))
            if prop == 'C05':
                # "the derived code compiles": a definition of the generated program that rustc rejects is a failing input
                src = open(os.path.join(VERIF, 'harness', 'src', 'gen_types.rs')).read().split('\n')
                seen = set()
                for m in re.finditer(r'(error(?:\[E\d+\])?: [^\n]*)\n\s*--> src/gen_types\.rs:(\d+):', out):
                    ln = int(m.group(2))
                    # the derive attribute is reported at the #[derive] line: the definition follows it
                    k = ln - 1
                    while k < len(src) and not re.match(r'pub (struct|enum) ', src[k]): k += 1
                    d = src[k] if k < len(src) else src[ln - 1]
                    if d in seen: continue
                    seen.add(d)
                    failures.append(({'op': 'compile', 'type_shape': '', 'rust_type': d.split('{')[0][:80], 'outcome': 'rejected', 'clause': 'compile'},
                                     {'why': 'compile: the derived code for a definition of the grammar does not compile', 'definition': d,
                                      'error': m.group(1)[:300], 'lines': [], 'meta': {'kind': 'compile'}}))
            return {'failures': failures, 'disagreements': disagreements,
                    'coverage': {'evaluations': 0, 'distinct_nontrivial': 0, 'rule': self.rule, 'samples': []}}
        names = harness_names()
        cs = casegen.gen_cases(prop, u, seed, tier, probe=run_harness)
        hide_known_witnesses(cs, u, prop)
        if not replay:
            # a sample of the cases is run a second time at the end, in reverse order, in the same process: the answers of
            # the implementation must not depend on what it has been asked before (caches keyed by a type name, an
            # address, a length ... show up as a disagreement with the model, which is a function of the line)
            import random as _random
            r = _random.Random('again-%s-%s' % (seed, prop))
            idx = [k for k, m in enumerate(cs.meta) if m.get('kind') not in ('type', 'stype', 'name', 'sname') and len(cs.lines[k]) < 100000]
            pick = sorted(r.sample(idx, min(len(idx), max(20, len(idx) // 25))), reverse=True)
            for k in pick:
                cs.lines.append(cs.lines[k]); cs.meta.append(dict(cs.meta[k], again=True))
        if replay:
            rp = json.load(open(replay))
            lines = rp.get('detail', {}).get('lines')
            if lines:
                keep = [k for k, l in enumerate(cs.lines) if l.startswith('type ')]
                cs.lines = [cs.lines[k] for k in keep] + lines
                cs.meta = [cs.meta[k] for k in keep] + [rp['detail'].get('meta', {'kind': 'case'})] * len(lines)
        # the implementation may abort (allocator / sanitizer-style checks, double free, ...): the line it died
        # on is a failing input of its own; the run is resumed after it (at most 8 times)
        impl, start, crashes = [], 0, []
        header = [l for l in cs.lines if l.split(' ')[0] in ('type', 'stype')]
        while True:
            chunk = cs.lines[start:]
            out = run_harness((header if start else []) + chunk)
            if start:
                out = out[len(header):]
            if out and out[-1].startswith('<died'):
                k = start + len(out) - 1          # the line being processed when the process died
                impl.extend(out[:-1])
                impl.append('<crashed %s>' % out[-1][6:80])
                crashes.append((k, out[-1]))
                start = k + 1
                if len(crashes) >= 8 or start >= len(cs.lines):
                    break
            else:
                impl.extend(out)
                break
        model = run_model(names, cs.lines)
        n = len(cs.lines)
        for k, msg in crashes:
            meta = cs.meta[k]
            ti = meta.get('ti')
            rust = u.types[ti].rust() if ti is not None and ti < len(u.types) else ''
            failures.append(({'op': meta.get('family', meta.get('kind')), 'type_shape': '', 'rust_type': rust, 'outcome': 'crash', 'clause': 'crash'},
                             {'line': cs.lines[k], 'rust_type': rust, 'why': 'crash: the implementation aborted the process on this input (%s)' % msg[:120],
                              'lines': [cs.lines[k]], 'meta': _clean(meta)}))
        died = None
        if len(impl) != n and not crashes:
            died = ('impl', impl[-1] if impl else '')
        if len(model) != n:
            died = ('model', model[-1] if model else '')
        if died:
            k = min(len(impl), len(model)) - 1
            disagreements.append(({'op': 'run', 'type_shape': '', 'outcome': 'process-died'},
                                  {'what': '%s side stopped answering' % died[0], 'last': died[1],
                                   'line': cs.lines[max(k, 0)] if cs.lines else ''}))
        distinct = set()
        samples = []
        outcomes = {}
        ctx = {'u': u, 'prop': prop}
        for k in range(min(len(impl), len(model), n)):
            meta, line, ia, ma = cs.meta[k], cs.lines[k], impl[k], model[k]
            if ma.startswith('<died'):
                break
            if ia.startswith('<crashed') or ia.startswith('<died'):
                continue
            ti = meta.get('ti')
            tterm = u.types[ti].term() if ti is not None and ti < len(u.types) else ''
            rust = u.types[ti].rust() if ti is not None and ti < len(u.types) else ''
            sig = {'op': meta.get('family', meta.get('kind')), 'type_shape': shape_of(tterm), 'rust_type': rust,
                   'outcome': outcome_class(ia), 'mut': re.sub(r'\d+', 'n', str(meta.get('mut', '')))}
            if not answers_agree(ia, ma):
                disagreements.append((dict(sig, kind='disagreement'),
                                      {'line': line, 'rust_type': rust, 'impl': ia[:2000], 'model': ma[:2000], 'lines': [line], 'meta': _clean(meta)}))
            ctx['model_ans'] = ma
            why = self.oracle(meta, ia, ctx)
            if why:
                failures.append((dict(sig, clause=why.split(':')[0]),
                                 {'line': line, 'rust_type': rust, 'type_term': tterm, 'why': why, 'impl': ia[:2000], 'model': ma[:2000],
                                  'lines': [line], 'meta': _clean(meta)}))
            oc = outcome_class(ia)
            outcomes[oc] = outcomes.get(oc, 0) + 1
            if meta.get('kind') != 'type' and not casegen.is_trivial(meta.get('val', 'x')):
                distinct.add((shape_of(tterm), meta.get('family', meta.get('kind')), oc))
            if len(samples) < 6 and meta.get('kind') not in ('type',) and k % max(1, n // 6) == 0:
                samples.append({'line': line[:300], 'rust_type': rust, 'impl': ia[:400], 'model': ma[:400]})
        # thorough tier, in-memory properties: a sample of the cases once more under valgrind memcheck
        mc = None
        if tier == 'thorough' and prop in MEMCHECK_PROPS and not replay and not crashes:
            body = [l for l in cs.lines if l.split(' ')[0] not in ('type', 'stype')]
            n_mc, bad = core.memcheck(header, body, budget=600, seed=seed)
            mc = {'lines_run': n_mc, 'errors': 0 if bad is None else 1}
            if bad is not None:
                failures.append(({'op': 'memcheck', 'type_shape': '', 'rust_type': '', 'outcome': 'memory-error', 'clause': 'memcheck'},
                                 {'why': 'memcheck: valgrind reports an invalid memory access, an invalid free or a definitely lost block while the implementation processes these lines',
                                  'lines': bad['lines'], 'report': bad['report'], 'meta': {'kind': 'memcheck'}}))
        cov = {'evaluations': n, 'distinct_nontrivial': len(distinct), 'distinct_set': sorted(distinct),
               'rule': self.rule + ' Distinct = distinct (type shape, case family, outcome class) triples over cases whose value is not the empty/zero one.',
               'samples': samples, 'traces_validated_against_impl': min(len(impl), len(model)),
               'input_distribution': {'families': cs.dist, 'outcomes': outcomes, 'types': len(u.types),
                                      'derived_definitions': len(u.defs)}}
        if mc is not None:
            cov['memcheck'] = mc
        return {'failures': failures, 'disagreements': disagreements, 'coverage': cov}


def _clean(meta):
    return {k: v for k, v in meta.items() if isinstance(v, (int, str, bool, list))}


# ------------------------------------------------------------------------------------------------
# oracles: return None if the property holds on this case, or 'clause: explanation'

def o_c01(meta, ans, ctx):
    if meta.get('kind') == 'bigfile':
        return o_bigfile(meta, ans)
    if meta.get('kind') == 'rchunk':
        return None if ans == 'rchunk ok ' + meta['val'] else 'pipe: load_full of the stored bytes through a named pipe gives %s' % ans[:60]
    if meta.get('kind') == 'zstvec':
        return None if ans == 'zstvec ok' else 'zst-length: a sequence of %d zero-sized items does not round-trip (%s)' % (meta['n'], ans[:80])
    if meta.get('kind') != 'case' or meta['mut'] != '-':
        return None
    a = parse_case_answer(ans)
    if a is None: return 'shape: unparsable answer'
    if a['S']['status'] != 'ok': return 'ser: serialization did not succeed'
    if a['F']['status'] != 'ok': return 'full: deserialize_full did not return a value'
    if a['F']['val'] != meta['val']: return 'full-value: deserialize_full returned a different value'
    if int(a['F']['consumed']) != a['S']['count']: return 'full-count: bytes consumed differ from bytes written'
    return None


def o_c02(meta, ans, ctx):
    if meta.get('kind') == 'bigfile':
        return o_bigfile(meta, ans)
    if meta.get('kind') != 'case' or meta['mut'] != '-':
        return None
    a = parse_case_answer(ans)
    if a is None: return 'shape: unparsable answer'
    if a['S']['status'] != 'ok': return 'ser: serialization did not succeed'
    if a['E']['status'] != 'ok': return 'eps: deserialize_eps from an aligned buffer did not return a value'
    if erase_borrows(a['E']['val']) != meta['val']: return 'eps-value: the ε-copy result does not describe the original value'
    if a['F']['status'] != 'ok':
        return 'agree: full-copy deserialization of the same bytes gives no value (%s) where ε-copy does' % a['F']['status']
    if erase_borrows(a['E']['val']) != a['F']['val']:
        return 'agree: ε-copy and full-copy results differ'
    if a['E']['consumed'] != str(a['S']['count']): return 'eps-count: bytes consumed differ from bytes written'
    return None


def o_c07(meta, ans, ctx):
    k = meta.get('kind')
    if k == 'ser3':
        toks = dict(t.split(':', 1) for t in ans.split(' ')[1:] if ':' in t)
        v, it, sl = toks.get('V', ''), toks.get('I', '-'), toks.get('S', '')
        if not re.fullmatch(r'[0-9a-f]+', v): return 'ser: serializing the vector failed'
        if len(sl) != len(v): return 'slice-count: the slice writer handed the writer %d bytes, the vector writer %d' % (len(sl) // 2, len(v) // 2)
        if it != '-' and len(it) != len(v): return 'iter-count: the iterator writer handed the writer %d bytes, the vector writer %d (the deserializers of the vector consume the latter)' % (len(it) // 2, len(v) // 2)
        return None
    if k == 'layout':
        p = ans.split(' ')
        if len(p) == 4:
            size, align, unit = int(p[1]), int(p[2]), int(p[3])
            if unit == 0 or unit & (unit - 1): return 'unit-pow2: alignment unit %d is not a power of two' % unit
            if unit < align: return 'unit-align: unit %d smaller than native alignment %d' % (unit, align)
        return None
    if k == 'schema':
        ps = casegen.parse_schema(ans)
        if ps is None: return 'schema: serialize_with_schema failed'
        hx, rows, extra = ps
        data = bytes.fromhex(hx)
        for ri, r in enumerate(rows):
            if r['align'] > 1 and r['field'] != 'PADDING':
                if r['offset'] % r['align'] != 0:
                    return 'block-aligned: zero-copy block %s at offset %d, unit %d' % (r['field'], r['offset'], r['align'])
            if r['field'] == 'PADDING':
                if any(data[r['offset']:r['offset'] + r['size']]): return 'gap-zero: padding bytes are not zero'
                nxt = rows[ri + 1] if ri + 1 < len(rows) else None
                if nxt is None or nxt['offset'] != r['offset'] + r['size'] or nxt['align'] < 1:
                    return 'gap-adjacent: padding is not followed by a zero-copy block'
                if r['size'] >= nxt['align']: return 'gap-minimal: padding of %d bytes for unit %d' % (r['size'], nxt['align'])
        return None
    if k == 'case' and meta['mut'] == '-':
        a = parse_case_answer(ans)
        if a is None or a['S']['status'] != 'ok': return 'ser: serialization did not succeed'
        if a['S']['count'] != len(a['S']['hex']) // 2: return 'count: returned count differs from bytes handed to the writer'
        # "either deserializer consumes exactly that many bytes": both must get through the stream (aligned placement)
        if a['F']['status'] != 'ok': return 'full-consume: full-copy deserialization does not consume the serialized stream (%s)' % a['F']['status']
        if int(a['F']['consumed']) != a['S']['count']: return 'full-count: full-copy consumed a different number of bytes'
        if a['E']['status'] not in ('ok', '-'): return 'eps-consume: ε-copy deserialization does not consume the serialized stream (%s)' % a['E']['status']
        if a['E']['status'] == 'ok' and a['E']['consumed'] != str(a['S']['count']): return 'eps-count: ε-copy consumed a different number of bytes'
    return None


MAGIC = int.from_bytes(b'epserde ', 'little')
MAGIC_REV = int.from_bytes(b'epserde '[::-1], 'little')


def expected_header_error(hdr):
    """decision logic of check_header on the 29 fixed bytes (the published order of the checks)"""
    m = int.from_bytes(hdr[0:8], 'little')
    if m != MAGIC:
        return ('endianness', None) if m == MAGIC_REV else ('magic', m)
    major = int.from_bytes(hdr[8:10], 'little')
    if major != 1: return ('major', major)
    minor = int.from_bytes(hdr[10:12], 'little')
    if minor > 1: return ('minor', minor)
    if hdr[12] != 8: return ('usize', hdr[12])
    return None


def o_c10(meta, ans, ctx):
    if meta.get('kind') == 'quietminor':
        p = ans.split(' | ')
        if len(p) != 3 or not p[1].startswith('F ok') or not p[2].startswith('E ok'):
            return 'minor-lower-quiet: a file of minor version 0 is not accepted when stderr is unwritable (%s)' % ans[:80]
        return None
    if meta.get('kind') != 'case':
        return None
    a = parse_case_answer(ans)
    if a is None or a['S']['status'] != 'ok': return 'ser: serialization did not succeed'
    data = bytearray(bytes.fromhex(a['S']['hex']))
    orig = bytes(data)
    muts = [m.split(':') for m in meta['mut'].split('+')]
    mut = muts[0]
    misplaced = meta.get('r', 0) % 64 != 0
    def eps_refused_for_placement(x):
        # on a misplaced buffer a *valid* header may be followed by an alignment error of the ε-copy reader (which blocks are
        # concerned, and that it is exactly then, is C12); the model comparison pins the answer
        return misplaced and x['status'] == 'err' and x.get('kind') == 'alignment'
    if mut[0] == '-':
        return None if a['F']['status'] == 'ok' and (a['E']['status'] == 'ok' or eps_refused_for_placement(a['E'])) else 'baseline: unperturbed stream not accepted'
    for mut in muts:
        if mut[0] == 'flip':
            k = int(mut[1]); data[k // 8] ^= 1 << (k % 8)
        elif mut[0] == 'setw':
            o, w, v = int(mut[1]), int(mut[2]), int(mut[3])
            data[o:o + w] = v.to_bytes(w, 'little')
    exp = expected_header_error(data[:29])
    if exp is None:
        th0, ah0 = orig[13:21], orig[21:29]
        if bytes(data[13:21]) != th0:
            exp = ('typehash', int.from_bytes(data[13:21], 'little'))
        elif bytes(data[21:29]) != ah0:
            exp = ('alignhash', int.from_bytes(data[21:29], 'little'))
    for mode in ('F', 'E'):
        x = a[mode]
        if exp is None:
            # only the minor version lowered (or unchanged): same value as the baseline
            if mode == 'E' and eps_refused_for_placement(x): continue
            if x['status'] != 'ok': return 'minor-lower: a lower minor version is not accepted (%s)' % mode
            if erase_borrows(x['val']) != meta['val']: return 'minor-lower: a different value is returned (%s)' % mode
        else:
            if x['status'] == 'ok': return 'accepted: corrupted header accepted (%s)' % mode
            if x['status'] == 'panic': return 'panic: corrupted header makes the deserializer panic (%s)' % mode
            if x['kind'] != exp[0]: return 'kind: expected error %s, got %s (%s)' % (exp[0], x['kind'], mode)
            if exp[1] is not None and x.get('payload') != str(exp[1]): return 'payload: error does not carry the offending value (%s)' % mode
    return None


def o_c11(meta, ans, ctx):
    if meta.get('kind') == 'bigfile':
        return o_bigfile(meta, ans)
    if meta.get('kind') == 'fload':
        p = ans.split(' ')
        if p[0] != 'fload' or len(p) < 2: return 'shape: ' + ans[:60]
        if meta['cut'] is None:
            return None if p[1] == 'ok' else 'file-whole: load_full of the complete file failed (%s)' % ' '.join(p[1:3])
        l = meta['loader']
        if l == 'full' and p[1:3] != ['err', 'read']:
            return 'file-full: load_full of a file cut at %d of %d did not return a read error (%s)' % (meta['cut'], meta['total'], ' '.join(p[1:3]))
        if l == 'map' and p[1] == 'ok':
            return 'file-map: mmap of a file cut at %d of %d returned a structure' % (meta['cut'], meta['total'])
        # load_mem / load_mmap zero-extend the file: outside the clause; their outcome is compared with the model only
        return None
    if meta.get('kind') != 'case':
        return None
    a = parse_case_answer(ans)
    if a is None or a['S']['status'] != 'ok': return 'ser: serialization did not succeed'
    if meta['mut'] == '-':
        return None
    k = int(meta['mut'].split(':')[1])
    if k >= a['S']['count']:
        return None
    if a['F']['status'] != 'err' or a['F']['kind'] != 'read':
        return 'full: strict prefix not refused with a read error by deserialize_full (%s)' % a['F']['status']
    if a['E']['status'] == 'ok':
        return 'eps: strict prefix turned into a value by deserialize_eps'
    return None


def o_c12(meta, ans, ctx):
    if meta.get('kind') == 'loadu':
        p = ans.split(' ')
        if p[:3] == ['load', 'err', 'alignment']: return None
        if len(p) > 2 and p[1] == 'ok':
            if '@!' in p[2]: return 'misaligned-reference: %s returned a structure holding a misaligned reference (%s)' % (meta['loader'], p[2][:80])
            if erase_borrows(p[2]) != meta['val']: return 'value: the loaded structure differs from the stored value'
            return None
        return 'load-overaligned: %s of an over-aligned type gives %s instead of an alignment error or a value' % (meta['loader'], ' '.join(p[1:3])[:40])
    if meta.get('kind') != 'case':
        return None
    a = parse_case_answer(ans)
    if a is None or a['S']['status'] != 'ok': return 'ser: serialization did not succeed'
    r = meta['r']
    bad = [(o, u_) for (o, u_) in meta.get('blocks', []) if (r + o) % u_ != 0]
    e = a['E']
    if meta.get('bytealigned') and e['status'] != 'ok':
        return 'byte-aligned: the stream holds only byte-aligned data but is refused (%s) at base residue %d' % (e['status'], r)
    if not bad:
        if e['status'] != 'ok': return 'aligned-ok: every block is aligned at this placement but the result is %s' % e['status']
        if erase_borrows(e['val']) != meta['val']: return 'aligned-value: wrong value at an aligned placement'
    else:
        if e['status'] == 'ok': return 'misaligned-accepted: block at offset %d (unit %d) misplaced, still a value' % bad[0]
        if e['status'] != 'err' or e['kind'] != 'alignment': return 'misaligned-error: expected an alignment error, got %s' % e['status']
    return None


def o_c15(meta, ans, ctx):
    if meta.get('kind') == 'rchunk':
        return None if ans == 'rchunk ok ' + meta['val'] else 'reader: a value of a sum type read through an interrupting reader gives %s' % ans[:60]
    if meta.get('kind') != 'case':
        return None
    a = parse_case_answer(ans)
    if a is None or a['S']['status'] != 'ok': return 'ser: serialization did not succeed'
    if meta['mut'] == '-':
        if a['F']['status'] != 'ok' or a['F']['val'] != meta['val']: return 'roundtrip-full: written tag not mapped back to the variant'
        if a['E']['status'] != 'ok' or erase_borrows(a['E']['val']) != meta['val']: return 'roundtrip-eps: written tag not mapped back to the variant'
        return None
    tag, nv = meta['tag'], meta['nv']
    if tag >= nv:
        for mode in ('F', 'E'):
            x = a[mode]
            if x['status'] == 'ok': return 'foreign-accepted: foreign tag %d mapped to a variant (%s)' % (tag, mode)
            if x['status'] != 'err' or x['kind'] != 'tag': return 'foreign-error: foreign tag not rejected with an invalid-tag error (%s: %s)' % (mode, x['status'])
            if x.get('payload') != str(tag): return 'foreign-payload: the error carries %s instead of the tag %d (%s)' % (x.get('payload'), tag, mode)
    return None


def o_c19(meta, ans, ctx):
    if meta.get('kind') != 'cursor':
        return None
    if not ans.startswith('cursor '):
        return 'shape: ' + ans[:40]
    parts = ans[len('cursor '):].split(' || ')
    if len(parts) != 2:
        return 'shape: unparsable answer'
    al, st = parts
    ao0, so0 = al.split(' | ')[0].split(','), st.split(' | ')[0].split(',')
    if 'panic' in ao0 and not ('panic' in so0 and ao0.index('panic') == so0.index('panic')):
        # (a write that would end above isize::MAX panics in the standard cursor as well — "capacity overflow" — at the same
        # operation: then the states found after the panic are compared like any others)
        return 'panic: the aligned cursor panicked where the standard cursor did not'
    if 'statepanic' in al:
        return 'state: the observers of the aligned cursor panic after the history'
    if al.endswith('ptrbad'):
        return 'address: storage not aligned to the alignment type'
    if al.rsplit(' ', 1)[0] != st.rsplit(' ', 1)[0]:
        ao, so = al.split(' | ')[0].split(','), st.split(' | ')[0].split(',')
        for k, (x, y) in enumerate(zip(ao, so)):
            if x != y:
                return 'result: operation %d returned %s, the standard cursor %s' % (k, x[:40], y[:40])
        return 'state: final contents / length / position differ from the standard cursor'
    return None


def o_c03(meta, ans, ctx):
    k = meta.get('kind')
    if k == 'case' and meta.get('family') == 'placement':
        # whatever the placement, a returned value never holds a reference off its unit
        a = parse_case_answer(ans)
        if a is None or a['E']['status'] != 'ok':
            return None
        if '@!' in a['E']['val']:
            return 'elem-aligned: a borrowed slice or reference is not aligned for its element type (placement %d)' % meta['r']
        bad = [(o, u_) for (o, u_) in meta.get('blocks', []) if (meta['r'] + o) % u_ != 0]
        if bad:
            return 'aligned: a value was returned although the block at offset %d (unit %d) is misplaced' % bad[0]
        return None
    if k == 'case':
        a = parse_case_answer(ans)
        if a is None or a['S']['status'] != 'ok' or a['E']['status'] != 'ok':
            return None   # C02's business
        n = a['S']['count']
        # the harness prints '!' after '@' when the real pointer of a borrowed slice / reference is not a multiple of
        # the native alignment of its element type (measured on the pointer, independent of the recorded unit)
        if '@!' in a['E']['val']:
            return 'elem-aligned: a borrowed slice or reference is not aligned for its element type (%s)' % a['E']['val'][max(0, a['E']['val'].index('@!') - 10):][:60]
        # every borrowed node points into the buffer (offsets are printed relative to it; '-' = outside)
        for kind, off in borrows_of(a['E']['val']):
            if off == '-':
                if kind != 'ref': return 'in-buffer: a borrowed %s does not point into the input buffer' % kind
                continue
            if int(off) > n: return 'in-bounds: a borrowed node starts at %s, the stream has %d bytes' % (off, n)
        # the model gives the offsets at which the writer put each block: compared line by line already
        return None
    if k == 'alloc':
        p = ans.split(' ')
        if len(p) < 5 or p[0] != 'alloc': return 'shape: ' + ans[:60]
        if p[4] != 'E' or p[5] != 'ok': return None
        g = meta.get('group')
        if g is None: return None
        seen = ctx.setdefault('c03_groups', {})
        if g not in seen:
            seen[g] = (p[1], p[2], meta['factor'])
            return None
        c0, b0, f0 = seen[g]
        if (p[1], p[2]) != (c0, b0):
            return 'alloc-scaling: %s calls / %s bytes with borrowed payloads x%d, %s / %s with x%d' % (c0, b0, f0, p[1], p[2], meta['factor'])
        return None
    return None


def o_c06(meta, ans, ctx):
    k = meta.get('kind')
    if k == 'corpus-missing':
        return 'corpus-type: the corpus type %s is no longer in the universe' % meta.get('entry')
    if k == 'case' and meta.get('family') == 'corpus-write':
        a = parse_case_answer(ans)
        if a is None or a['S']['status'] != 'ok': return 'corpus-write: serialization failed'
        hx, st, mask = a['S']['hex'], meta['stored'], meta['mask']
        if len(hx) != len(st): return 'corpus-write: %d bytes now, %d in the corpus' % (len(hx) // 2, len(st) // 2)
        for j in range(0, len(hx), 2):
            if mask[j // 2] == 'x' and hx[j:j + 2] != st[j:j + 2]:
                return 'corpus-write: byte %d differs from the file written by the pinned build' % (j // 2)
        return None
    if k == 'fromhex':
        p = ans.split(' | ')
        if len(p) != 3: return 'shape: ' + ans[:60]
        f, e = p[1].split(' '), p[2].split(' ')
        if f[1] != 'ok' or f[2] != meta['val']: return 'corpus-read-full: a stored file no longer deserializes to the stored value (%s)' % ' '.join(f[1:3])[:60]
        ti = meta.get('ti')
        wit = ti is not None and ti < len(ctx['u'].types) and any(x.known and 'C07' in x.known for x in ctx['u'].types[ti].walk())
        if wit and e[1:3] == ['err', 'alignment']:
            # a witness of the recorded finding KF-C07-1 (unit 3: blocks are not on multiples of their unit, so ε-copy of a
            # stored file is refused at most placements): here only the bytes and the full-copy reader are pinned
            return None
        if e[1] != 'ok' or erase_borrows(e[2]) != meta['val']: return 'corpus-read-eps: a stored file no longer ε-copy deserializes to the stored value (%s)' % ' '.join(e[1:3])[:60]
        if f[3] != str(meta['total']): return 'corpus-read-count: %s bytes consumed of %d' % (f[3], meta['total'])
        return None
    if k == 'hash' and 'th' in meta:
        p = ans.split(' ')
        if p[1] != meta['th']: return 'corpus-hash: the type hash changed'
        if p[2] != meta['ah']: return 'corpus-hash: the alignment hash changed'
        return None
    if k == 'case':
        return o_c01(meta, ans, ctx)
    return None


def o_c09(meta, ans, ctx):
    if meta.get('kind') == 'dropcheck':
        return None if ans == 'dropcheck ok' else 'drop-order: the destructor of a structure loaded by %s did not see its data (%s): the backing region was gone before its owner was dropped' % (meta['loader'], ans[:80])
    if meta.get('kind') != 'leak':
        return None
    kv = dict(t.split('=', 1) for t in ans.split(' ')[1:] if '=' in t)
    if 'heap' not in kv: return 'shape: ' + ans[:60]
    heap, maps = int(kv['heap']), int(kv['maps'])
    if kv.get('layouts', '0') != '0':
        return 'layout: %s allocator calls broke the layout contract — a block handed back with another size or alignment than it was requested with, or a request of zero bytes (%s, %s)' % (kv['layouts'], meta['loader'], meta['variant'])
    what = 'succeeding' if kv.get('first') == 'ok' else ('panicking' if kv.get('first') == 'panic' else 'failing')
    # live bytes are counted exactly by the harness allocator after a warm-up load; one-off allocations are
    # tolerated, a leak grows with the repetitions (at least one byte each)
    if heap >= meta['reps']: return 'heap-leak: %d live bytes more after %d %s loads (%s, %s)' % (heap, meta['reps'], what, meta['loader'], meta['variant'])
    if maps >= max(2, meta['reps'] // 4): return 'map-leak: %d mappings more after %d %s loads (%s, %s)' % (maps, meta['reps'], what, meta['loader'], meta['variant'])
    return None


class C09Spec(CaseSpec):
    """the leak measurements through the line protocol, plus the probe programs (compile outcomes)"""
    def run(self, prop, tier, seed, replay=None):
        res = CaseSpec.run(self, prop, tier, seed, replay)
        import probes
        expect, got = probes.run_probes('c09_')
        samples = []
        for name in sorted(got):
            e, g = expect[name], got[name]
            outcome = 'compiles' if g['compiled'] else 'rejected'
            samples.append({'probe': name, 'path': e['path'], 'expected': e['expect'], 'outcome': outcome, 'codes': g['codes']})
            sig = {'op': 'probe', 'probe': name, 'outcome': outcome, 'type_shape': '', 'rust_type': ''}
            detail = {'probe': name, 'source': 'probes/src/bin/%s.rs' % name, 'path': e['path'], 'expected': e['expect'],
                      'outcome': outcome, 'codes': g['codes'], 'messages': g['messages'][:3]}
            if g.get('dep_failed'):
                res['disagreements'].append((dict(sig, kind='probe-build'), detail))
            elif e['expect'] == 'rejected' and g['compiled']:
                detail['why'] = 'escape: a safe program that keeps borrowed data past its owner compiles'
                res['failures'].append((dict(sig, clause='escape'), detail))
            elif e['expect'] == 'rejected' and not any(c in ('E0597', 'E0505', 'E0515', 'E0716', 'E0521', 'E0506', 'E0502', 'E0499', 'E0373', 'E0310') for c in g['codes']):
                res['disagreements'].append((dict(sig, kind='probe-rejected-for-another-reason'), detail))
            elif e['expect'] == 'compiles' and not g['compiled']:
                detail['why'] = 'usable: an ordinary client program no longer compiles'
                res['disagreements'].append((dict(sig, kind='probe-ordinary-use-rejected'), detail))
        res['coverage']['programs'] = len(got)
        res['coverage']['probe_results'] = samples
        return res


def o_bigfile(meta, ans):
    """very large files built by the harness: the whole stream must come back equal through every entry point; a strict
    prefix must be refused with a read error by the full-copy entry points and must not become a value through mmap / ε-copy"""
    p = ans.split(' ')
    if p[0] != 'bigfile' or len(p) != 3: return 'shape: ' + ans[:60]
    if meta.get('prefix') is None:
        return None if p[1] == 'ok' else 'big: %s of a large stored value gives %s' % (meta['loader'], ' '.join(p[1:]))
    l = meta['loader']
    if l in ('dfull', 'full') and p[1:] != ['err', 'read']:
        return 'big-prefix: %s of a strict prefix (%s) of a large stream gives %s instead of a read error' % (l, meta['prefix'], ' '.join(p[1:]))
    if l in ('map', 'deps') and p[1] in ('ok', 'differs'):
        return 'big-prefix: %s turned a strict prefix (%s) of a large stream into a value' % (l, meta['prefix'])
    return None


def o_c04(meta, ans, ctx):
    k = meta.get('kind')
    u = ctx['u']
    if k == 'hash':
        p = ans.split(' ')
        ctx.setdefault('c04_hashes', {})[meta['ti']] = (p[1], p[2])
        return None
    if k != 'xdeser':
        return None
    p = ans.split(' | ')
    if len(p) != 3: return 'shape: ' + ans[:60]
    ta, tb = u.types[meta['ti']], u.types[meta['tj']]
    same = ta.term() == tb.term()
    for part, mode in ((p[1], 'full'), (p[2], 'eps')):
        t = part.split(' ')
        minor = meta.get('minor', 1)
        if same:
            continue
        if t[1] == 'ok':
            return 'accepted: bytes written as %s accepted as %s (%s%s)' % (ta.rust(), tb.rust(), mode, '' if minor == 1 else ', minor version %d' % minor)
        if minor > 1:
            if t[1] != 'err' or t[2] != 'minor':
                return 'error-kind: a stream of minor version %d gives %s instead of the version error (%s)' % (minor, ' '.join(t[1:3]), mode)
            continue
        if t[1] != 'err' or t[2] not in ('typehash', 'alignhash'):
            return 'error-kind: bytes written as %s read as %s give %s instead of a hash error (%s)' % (ta.rust(), tb.rust(), ' '.join(t[1:3]), mode)
    return None


def o_c08(meta, ans, ctx):
    if meta.get('kind') == 'dropcheck':
        return None if ans == 'dropcheck ok' else 'drop-order: the destructor of a structure loaded by %s did not see its data (%s): the backing region was gone before its owner was dropped' % (meta['loader'], ans[:80])
    if meta.get('kind') == 'bigfile':
        return o_bigfile(meta, ans)
    if meta.get('kind') == 'rchunk':
        return None if ans == 'rchunk ok ' + meta['val'] else 'pipe: load_full of the stored bytes through a named pipe gives %s' % ans[:60]
    if meta.get('kind') != 'load':
        return None
    p = ans.split(' ')
    if p[0] != 'load': return 'shape: ' + ans[:60]
    if p[1] != 'ok': return 'load: %s of a stored value failed (%s)' % (meta['loader'], ' '.join(p[1:3])[:40])
    kv = dict(t.split('=', 1) for t in p[3:] if '=' in t)
    if erase_borrows(p[2]) != meta['val']: return 'value: the loaded structure differs from the stored value'
    if kv.get('store') != 'true': return 'store: the stored file has a different length than the serialized bytes'
    file_len = len(kv.get('file', '')) // 2
    # the file must hold the serialized bytes (compared with the model through the masked comparison)
    l = meta['loader']
    region = int(kv.get('region', '0'))
    if l == 'mem':
        if region % 64 or region < file_len or region >= file_len + 64: return 'region: heap region of %d bytes for a file of %d' % (region, file_len)
    if l == 'mmap':
        if region % 16 or region < file_len or region >= file_len + 16: return 'region: mapping of %d bytes for a file of %d' % (region, file_len)
    if l == 'map' and region != file_len: return 'region: mapping of %d bytes for a file of %d' % (region, file_len)
    if l != 'full':
        if kv.get('basemod') != '0': return 'base: backing region not aligned to 64'
        if kv.get('tailzero') != 'true': return 'tail: the region is not zero-filled after the end of the file'
        for kind, off in borrows_of(p[2]):
            if off == '-':
                if kind != 'ref': return 'in-region: a borrowed %s does not point into the backing region' % kind
            elif int(off) > file_len: return 'in-region: a borrowed part starts beyond the file'
    if kv.get('moved') != 'true': return 'moved: contents changed after moving / boxing / reading from other threads'
    f = meta['flags']
    exp = (128 if f & 1 else 0) + (256 if f & 2 else 0) + (512 if f & 4 else 0)
    if kv.get('mflags') != str(exp): return 'flags: flag set %d translated to %s' % (f, kv.get('mflags'))
    return None


def o_c18(meta, ans, ctx):
    k = meta.get('kind')
    if k == 'case':
        a = parse_case_answer(ans)
        if a and a['S']['status'] == 'ok':
            ctx.setdefault('c18_plain', {})[(meta['ti'], meta['val'])] = a['S']['hex']
        return None
    if k != 'schema':
        return None
    ps = casegen.parse_schema(ans)
    if ps is None: return 'schema: serialize_with_schema failed (%s)' % ans[:40]
    hx, rows, extra = ps
    data = bytes.fromhex(hx)
    n = len(data)
    base = meta.get('base')
    if base is not None and extra.get('same') != 'true':
        return 'same-bytes: after %d bytes, the recording writer wrote a different stream than the plain writer' % base
    plain = ctx.get('c18_plain', {}).get((meta['ti'], meta['val'])) if base is None else None
    if plain is not None:
        mp = ctx.get('model_ans', '').split(' ')
        mask = mp[2] if len(mp) > 2 else ''
        if len(plain) != len(hx) or any(mask[j:j + 2] != '..' and plain[j:j + 2] != hx[j:j + 2] for j in range(0, len(hx), 2)):
            return 'same-bytes: the recording writer wrote different bytes than the plain writer'
    if extra.get('flushed', 'true') != 'true': return 'flushed: when the call returned, a sink that hands its bytes on when flushed had not received the whole stream'
    if extra.get('csv', 'None') == 'None': return 'render-csv: to_csv panicked'
    if extra.get('debug', 'None') == 'None': return 'render-debug: debug panicked'
    # depth of each row; a padding row sits at the level of the zero-copy row that follows it
    depth = []
    for ri, r in enumerate(rows):
        if r['field'] == 'PADDING':
            if ri + 1 >= len(rows): return 'padding-last: a padding row is the last row'
            depth.append(len(rows[ri + 1]['field'].split('.')))
        else:
            depth.append(len(r['field'].split('.')))
    for r in rows:
        if r['offset'] + r['size'] > n: return 'in-stream: row %s [%d,+%d) exceeds the stream of %d bytes' % (r['field'], r['offset'], r['size'], n)
        if r['field'] == 'PADDING' and any(data[r['offset']:r['offset'] + r['size']]): return 'padding-zero: a padding row covers non-zero bytes'
        if r['field'] != 'PADDING' and r['align'] > 1 and r['offset'] % r['align']: return 'zero-aligned: %s at %d, alignment %d' % (r['field'], r['offset'], r['align'])
    # pre-order reconstruction with tiling
    b0 = base or 0
    stack = [{'d': 0, 'off': b0, 'size': n - b0, 'cur': b0, 'kids': 0, 'field': ''}]
    def close(node):
        if node['kids'] and node['cur'] != node['off'] + node['size']:
            return 'tile-end: the children of %s end at %d, the row at %d' % (node['field'] or 'the stream', node['cur'], node['off'] + node['size'])
        return None
    for r, d in zip(rows, depth):
        while stack[-1]['d'] >= d:
            why = close(stack.pop())
            if why: return why
        parent = stack[-1]
        if parent['d'] != d - 1: return 'preorder: row %s at depth %d follows depth %d' % (r['field'], d, parent['d'])
        if r['field'] != 'PADDING' and parent['field'] and not r['field'].startswith(parent['field'] + '.'):
            return 'preorder: row %s is not under %s' % (r['field'], parent['field'])
        if r['offset'] != parent['cur']:
            return 'tile-gap: row %s starts at %d, expected %d' % (r['field'], r['offset'], parent['cur'])
        parent['cur'] += r['size']; parent['kids'] += 1
        stack.append({'d': d, 'off': r['offset'], 'size': r['size'], 'cur': r['offset'], 'kids': 0, 'field': r['field']})
    while stack:
        why = close(stack.pop())
        if why: return why
    return None


def _wfail_one(tok_res, tok_hex, k, total, ff, fault_free=None):
    if tok_res == 'panic': return 'panic: serialization panicked on a failing writer'
    if k is not None and k < total:
        if tok_res.startswith('ok'): return 'success: the writer refused bytes but serialization reported success'
        if tok_res != 'err': return 'result: expected a write error, got %s' % tok_res
    elif ff:
        if tok_res != 'err': return 'flush: flush failed but the result is %s' % tok_res
    else:
        if tok_res != 'ok:%d' % total: return 'split: a writer that takes everything got result %s' % tok_res
    return None


def o_iterretry(meta, ans):
    if ans == 'iterretry -': return None
    if 'second=returned' not in ans or 'first=panic' in ans:
        return 'iter-retry: an iterator wrapper used again after a failed serialization: %s' % ans[:80]
    return None


def o_c13(meta, ans, ctx):
    if meta.get('kind') == 'bigser':
        p = ans.split(' ')
        kv = dict(t.split('=', 1) for t in p[2:] if '=' in t)
        total = 64 + meta['n']
        sink = meta['sink']
        fails = (sink == 'once' and meta['n'] >= 1 << 20) or (sink.startswith('perm') and total > int(sink[4:]))
        if p[1] == 'panic': return 'panic: serialization of a large payload panicked'
        if fails:
            if p[1] != 'err': return 'success: the sink refused a write of a large payload and serialization reported %s' % p[1]
            if kv.get('after') != '0': return 'continued: %s more writes were offered to the sink after it had refused one' % kv.get('after')
        else:
            if p[1] != 'ok:%d' % total or kv.get('accepted') != str(total): return 'count: %d bytes to a sink that takes everything gave %s accepted=%s' % (total, p[1], kv.get('accepted'))
        return None
    if meta.get('kind') == 'iterretry':
        return o_iterretry(meta, ans)
    kind = meta.get('kind')
    if kind == 'wfail':
        p = ans.split(' ')
        if len(p) < 4 or p[0] != 'wfail': return 'shape: ' + ans[:60]
        if meta.get('devfull'):
            return None if p[1] == 'err' else 'devfull: serializing to /dev/full gave %s' % p[1]
        if meta.get('at') is not None:
            if p[1] == 'panic': return 'panic: serialization panicked on a failing writer'
            if meta['ff'] and p[1] != 'err': return 'flush: flush failed (structure written at offset %d) but the result is %s' % (meta['at'], p[1])
            if not meta['ff'] and not p[1].startswith('ok:'): return 'split: a writer that takes everything got result %s' % p[1]
            return None if 'intact=true' in ans else 'intact: the source value changed'
        why = _wfail_one(p[1], p[2], meta['k'], meta['total'], meta['ff'])
        if why: return why
        if 'intact=true' not in ans: return 'intact: the source value changed'
        base = ctx.setdefault('c13_full', {})
        key = (meta['ti'], meta['val'])
        if meta['k'] is None and not meta['ff']:
            base[key] = p[2]
        full = base.get(key)
        if full is not None:
            # interior padding of zero-copy structures is whatever the memory held (the model marks
            # those positions with '..'): it is masked on both sides
            mp = ctx.get('model_ans', '').split(' ')
            mask = mp[2] if len(mp) > 2 else ''
            acc = p[2]
            ok = len(acc) <= len(full)
            if ok:
                for j in range(0, len(acc), 2):
                    if mask[j:j + 2] == '..':
                        continue
                    if acc[j:j + 2] != full[j:j + 2]:
                        ok = False; break
            if not ok:
                return 'prefix: the accepted bytes are not a prefix of the fault-free output'
        if meta['k'] is not None and len(p[2]) // 2 != min(meta['k'], meta['total']):
            return 'accepted: %d bytes accepted with a budget of %d' % (len(p[2]) // 2, meta['k'])
        return None
    if kind == 'wfails':
        if 'panic' in ans: return 'panic: serialization of a slice panicked on a failing writer'
        m = re.search(r'frees=(\d+)', ans)
        if not m: return 'shape: ' + ans[:60]
        if m.group(1) != '0': return 'freed: the borrowed buffer was handed to the allocator to be freed'
        if 'intact=true' not in ans: return 'intact: the borrowed data changed'
        for part in ans.split(' | '):
            t = part.split(' ')
            if t[0] == 'wfail' and t[1].startswith('ok') and meta['k'] is not None and len(t[2]) // 2 > meta['k']:
                return 'success: more bytes than the budget accepted'
        return None
    return None


def o_c14(meta, ans, ctx):
    if meta.get('kind') == 'bigfile':
        return o_bigfile(meta, ans)
    if meta.get('kind') != 'rchunk':
        return None
    if ans == 'rchunk panic': return 'panic: deserialize_full panicked on a fragmenting/failing reader'
    k, n = meta['k'], meta['total']
    if k is None or k >= n:
        if ans != 'rchunk ok ' + meta['val']: return 'value: fragmentation changed the result (%s)' % ans[:60]
    else:
        if ans.startswith('rchunk ok'): return 'failure-accepted: the reader failed at %d of %d and a value was returned' % (k, n)
        if ans != 'rchunk err read': return 'failure-error: expected a read error, got %s' % ans[:40]
    return None


def o_c16(meta, ans, ctx):
    k = meta.get('kind')
    if k == 'ser3':
        toks = dict(t.split(':', 1) for t in ans.split(' ')[1:] if ':' in t)
        if 'V' not in toks: return 'shape: ' + ans[:60]
        v = toks['V']
        if not re.fullmatch(r'[0-9a-f]+', v): return 'vec: serializing the vector failed (%s)' % v[:40]
        # interior padding of zero-copy structures is uninitialised memory: two serializations of the same value may
        # differ there; those positions ('..' in the model's bytes) are not compared
        mtoks = dict(t.split(':', 1) for t in ctx.get('model_ans', '').split(' ')[1:] if ':' in t)
        def same(a, b, mask):
            if a is None or b is None or len(a) != len(b): return False
            if not mask or len(mask) != len(a) or '.' not in mask: return a == b
            return all(mask[k:k + 2] == '..' or a[k:k + 2] == b[k:k + 2] for k in range(0, len(a), 2))
        if not same(toks.get('S'), v, mtoks.get('V')): return 'slice: the slice reference is not serialized like the vector'
        if toks.get('I') != '-' and not same(toks.get('I'), v, mtoks.get('V')): return 'iter: the iterator wrapper is not serialized like the vector'
        wv = toks.get('WV')
        if not same(toks.get('WS'), wv, mtoks.get('WV')): return 'nested-slice: a structure holding the slice differs from the one holding the vector'
        if toks.get('WI') != '-' and not same(toks.get('WI'), wv, mtoks.get('WV')): return 'nested-iter: a structure holding the iterator differs from the one holding the vector'
        ev = toks.get('EV')
        if ev is not None:
            if not same(toks.get('ES'), ev, mtoks.get('EV')): return 'enum-slice: an enum variant holding the slice differs from the one holding the vector'
            if toks.get('EI') != '-' and not same(toks.get('EI'), ev, mtoks.get('EV')): return 'enum-iter: an enum variant holding the iterator differs from the one holding the vector'
            if toks.get('EU') != toks.get('EUV'): return 'enum-unit: the unit variant of an enum parameterised by a slice differs from the one parameterised by a vector'
        mv = toks.get('MV')
        if mv is not None:
            if not same(toks.get('MS'), mv, mtoks.get('MV')): return 'stamped-slice: a macro-stamped structure holding the slice differs from the one holding the vector'
            if toks.get('MI') != '-' and not same(toks.get('MI'), mv, mtoks.get('MV')): return 'stamped-iter: a macro-stamped structure holding the iterator differs from the one holding the vector'
        if 'intact=true' not in ans: return 'intact: the source vector changed'
        return None
    if k == 'iter':
        if ans == 'iter -': return None
        p = ans.split(' ')
        n, a = meta['n'], meta['a']
        if n == a:
            if p[1] != 'ok': return 'honest: an honest iterator is refused (%s)' % p[1]
        else:
            if p[1] == 'ok': return 'lying-accepted: announced %d, yielded %d, serialization succeeded' % (a, n)
            if p[1] != 'mismatch': return 'lying-error: expected a length-mismatch error, got %s' % p[1]
            if p[2] != str(n) or p[3] != str(a): return 'lying-counts: the error reports actual=%s expected=%s' % (p[2], p[3])
        return None
    return None


class ProbeSpec(CaseSpec):
    """line-protocol cases plus probe programs that are built (and, when they compile, run)"""
    prefix = ''
    reject_markers = ()

    def judge_run(self, name, e, g):
        """-> (failure text or None) for a probe that compiled and ran"""
        if g['rc'] != 0: return 'probe-failed: exit status %s: %s' % (g['rc'], (g.get('stderr') or '')[-300:])
        return None

    def run(self, prop, tier, seed, replay=None):
        res = CaseSpec.run(self, prop, tier, seed, replay)
        import probes
        expect, got = probes.run_probe_bins(self.prefix)
        samples = []
        for name in sorted(got):
            e, g = expect[name], got[name]
            outcome = 'rejected' if not g['compiled'] else ('ran rc=%s' % g['rc'])
            samples.append({'probe': name, 'path': e['path'], 'expected': e['expect'], 'outcome': outcome, 'codes': sorted(set(g['codes'])),
                            'output': g['stdout'][:1500]})
            sig = {'op': 'probe', 'probe': name, 'outcome': outcome.split(' ')[0], 'type_shape': '', 'rust_type': ''}
            detail = {'probe': name, 'source': 'probes/src/bin/%s.rs' % name, 'path': e['path'], 'expected': e['expect'],
                      'outcome': outcome, 'codes': sorted(set(g['codes'])), 'messages': g['messages'][:4], 'output': g['stdout'][:1500]}
            if g.get('dep_failed'):
                res['disagreements'].append((dict(sig, kind='probe-build'), detail))
            elif e['expect'] == 'rejected' and g['compiled']:
                why = self.judge_accepted(name, e, g)
                if why:
                    detail['why'] = why
                    res['failures'].append((dict(sig, clause=why.split(':')[0]), detail))
            elif e['expect'] == 'rejected':
                if self.reject_markers and not any(mk in msg for mk in self.reject_markers for msg in g['messages']):
                    res['disagreements'].append((dict(sig, kind='probe-rejected-for-another-reason'), detail))
            elif e['expect'] == 'runs' and not g['compiled']:
                detail['why'] = 'compile: a program of the supported grammar no longer compiles'
                res['failures'].append((dict(sig, clause='compile'), detail))
            elif e['expect'] == 'runs':
                why = self.judge_run(name, e, g)
                if why:
                    detail['why'] = why
                    res['failures'].append((dict(sig, clause=why.split(':')[0], what=why), detail))
        res['coverage']['programs'] = len(got)
        res['coverage']['probe_results'] = samples
        # programs marked `release` are built and run a second time with --release (no debug assertions, no overflow checks)
        rel = [n for n in sorted(got) if expect[n].get('release') and expect[n]['expect'] == 'runs']
        if rel:
            _, got2 = probes.run_probe_bins(self.prefix, release=True)
            for name in rel:
                g = got2.get(name)
                if g is None: continue
                sig = {'op': 'probe-release', 'probe': name, 'outcome': 'ran' if g['compiled'] else 'rejected', 'type_shape': '', 'rust_type': ''}
                detail = {'probe': name, 'profile': 'release', 'source': 'probes/src/bin/%s.rs' % name, 'output': g['stdout'][:1500], 'messages': g['messages'][:4]}
                if not g['compiled']:
                    res['disagreements'].append((dict(sig, kind='probe-build'), detail)); continue
                why = self.judge_run(name, expect[name], g)
                if why:
                    detail['why'] = why + ' [release profile]'
                    res['failures'].append((dict(sig, clause=why.split(':')[0], what=why), detail))
                samples.append({'probe': name + ' (release profile)', 'path': expect[name]['path'], 'expected': 'runs', 'outcome': 'ran rc=%s' % g['rc'], 'codes': [], 'output': g['stdout'][:600]})
        return res

    def judge_accepted(self, name, e, g):
        return 'accepted: a program expected to be rejected compiles'


class C08Spec(ProbeSpec):
    """the loader cases in the default configuration (and the probe programs about `Send` / `Sync`), then the full / heap
    loaders again with the crate built without the `mmap` feature (the only other configuration that has loaders)"""
    prefix = 'c08_'
    reject_markers = ('cannot be shared between threads safely', 'cannot be sent between threads safely')

    def run(self, prop, tier, seed, replay=None):
        res = ProbeSpec.run(self, prop, tier, seed, replay)
        if replay or any(s.get('op') == 'build' for s, _ in res['disagreements']):
            return res
        ok, out = core.harness_build_nommap()
        sig0 = {'op': 'load-nommap', 'type_shape': '', 'rust_type': '', 'outcome': ''}
        if not ok:
            res['disagreements'].append((dict(sig0, outcome='build-failed', kind='build-nommap'),
                                         {'what': 'cargo build --no-default-features of the harness (epserde without mmap) failed', 'output': out[-3000:]}))
            return res
        u = build_universe(seed, tier)
        cs = casegen.gen_cases(prop, u, seed, tier, probe=run_harness)
        hide_known_witnesses(cs, u, prop)
        keep = [k for k, m in enumerate(cs.meta) if m.get('kind') == 'type' or (m.get('kind') == 'load' and m.get('loader') in ('full', 'mem') and m.get('flags') == 0)]
        lines = [cs.lines[k] for k in keep]
        metas = [cs.meta[k] for k in keep]
        impl = run_harness(lines, binary=core.HARNESS_BIN_NOMMAP)
        model = run_model(harness_names(), lines)
        ctx = {'u': u, 'prop': prop}
        n = 0
        for line, meta, ia, ma in zip(lines, metas, impl, model):
            if meta.get('kind') != 'load': continue
            n += 1
            rust = u.types[meta['ti']].rust()
            sig = dict(sig0, rust_type=rust, outcome=outcome_class(ia), op='load-%s-nommap' % meta['loader'])
            if not answers_agree(ia, ma):
                res['disagreements'].append((dict(sig, kind='disagreement'), {'line': line, 'rust_type': rust, 'impl': ia[:2000], 'model': ma[:2000],
                                                                              'lines': [line], 'meta': _clean(meta), 'configuration': 'no mmap feature'}))
            ctx['model_ans'] = ma
            why = self.oracle(meta, ia, ctx)
            if why:
                res['failures'].append((dict(sig, clause=why.split(':')[0]), {'line': line, 'rust_type': rust, 'why': why + ' [crate built without the mmap feature]',
                                                                              'impl': ia[:2000], 'model': ma[:2000], 'lines': [line], 'meta': _clean(meta)}))
        if len(impl) != len(lines):
            res['disagreements'].append((dict(sig0, outcome='process-died', kind='run-nommap'), {'what': 'the no-mmap harness stopped answering', 'last': impl[-1] if impl else ''}))
        res['coverage']['evaluations'] += n
        res['coverage']['configurations'] = {'default (std, mmap, derive)': res['coverage']['evaluations'] - n, 'std, derive (no mmap)': n}
        return res


class C04Spec(ProbeSpec):
    prefix = 'c04_'

    def judge_run(self, name, e, g):
        # "same type hash: A and B" lines name the colliding markers; the set of pairs identifies the failure
        pairs = sorted(set(tuple(l[len('same type hash: '):].split(' and ')) for l in g['stdout'].splitlines() if l.startswith('same type hash: ')))
        pairs = [p for p in pairs if not p[0].endswith('/bare')]
        cross_bad = [l for l in g['stdout'].splitlines() if l.startswith('cross ') and 'rejected=false' in l]
        if pairs or cross_bad:
            return 'collision: %s%s' % (','.join('%s=%s' % p for p in pairs), (' accepted: ' + '; '.join(cross_bad)) if cross_bad else '')
        if g['rc'] != 0: return 'probe-failed: exit status %s: %s' % (g['rc'], (g.get('stderr') or '')[-300:])
        return None


class C07Spec(ProbeSpec):
    prefix = 'c07_'


class C15Spec(ProbeSpec):
    prefix = 'c15_'


class C11Spec(ProbeSpec):
    prefix = 'c11_'


class C05Spec(ProbeSpec):
    prefix = 'c05_'


def parse_attempts(stdout):
    out = []
    for l in stdout.splitlines():
        p = l.split(' ')
        if p[0] != 'attempt': continue
        kv = dict(x.split('=', 1) for x in p[2:] if '=' in x)
        out.append((p[1], kv.get('panicked') == 'true', int(kv.get('extra', '0')), int(kv.get('allowed', '0'))))
    return out


class C17Spec(ProbeSpec):
    prefix = 'c17_'
    reject_markers = ('ZeroCopy', 'CopyType', 'proc-macro derive panicked', 'declared as zero copy', 'declared as both')

    def judge_attempts(self, name, g, must_panic):
        at = parse_attempts(g['stdout'])
        if g['rc'] != 0 or not at: return 'probe-failed: exit status %s, %d attempts reported' % (g['rc'], len(at))
        for what, panicked, extra, allowed in at:
            if must_panic and not panicked:
                return 'written: %s of a type wrongly declared zero-copy was serialized (%d bytes after the header)' % (what, extra)
            if must_panic and extra > allowed:
                return 'partial: %s: %d bytes after the header were written before the panic (%d belong to the enclosing container)' % (what, extra, allowed)
            if not must_panic and panicked:
                return 'control: a correctly declared zero-copy type is refused'
        return None

    def judge_run(self, name, e, g):
        return self.judge_attempts(name, g, must_panic=(name != 'c17_ok'))

    def judge_accepted(self, name, e, g):
        # rejected at compile time *or, failing that*, panics before writing any byte of the value
        if not g['ran']: return 'accepted: compiles and could not be run'
        at = parse_attempts(g['stdout'])
        if not at:
            return 'accepted: a wrongly declared zero-copy type compiles and its serialization is not refused at run time (exit status %s)' % g['rc']
        return self.judge_attempts(name, g, must_panic=True)


def o_c17(meta, ans, ctx):
    if meta.get('kind') != 'zcc':
        return None
    p = ans.split(' ')
    if len(p) != 3 or p[0] != 'zcc': return 'shape: ' + ans[:60]
    t = ctx['u'].types[meta['ti']]
    # the constant must be false for every type that owns heap memory (independent of the model)
    if p[1] == 'true' and meta['heap']:
        return 'const: IS_ZERO_COPY is true for %s, which owns heap memory or is not marked zero-copy' % t.rust()
    return None


def split_generic_args(name):
    """'path<a, b<c>, [d; 2]>' -> ('path', ['a', 'b<c>', '[d; 2]'])"""
    k = name.find('<')
    if k < 0 or not name.endswith('>'):
        return name, []
    inner, args, depth, cur = name[k + 1:-1], [], 0, ''
    for ch in inner:
        if ch in '<[(': depth += 1
        elif ch in '>])': depth -= 1
        if ch == ',' and depth == 0:
            args.append(cur.strip()); cur = ''
        else:
            cur += ch
    if cur.strip(): args.append(cur.strip())
    return name[:k], args


def o_c05(meta, ans, ctx):
    k = meta.get('kind')
    u = ctx['u']
    if k == 'dtype':
        p = ans.split(' ')
        if len(p) < 3 or p[0] != 'dtype': return 'shape: ' + ans[:60]
        if p[1] != 'same':
            t = u.types[meta['ti']]
            return 'eps-type: DeserType of %s is %s, the documented substitution gives %s' % (
                t.rust(), bytes.fromhex(p[2]).decode('utf-8', 'replace'), t.deser_rust())
        return None
    if k == 'derive':
        p = ans.split(' ')
        if len(p) != 3 or p[0] != 'derive': return 'shape: ' + ans[:60]
        actual, selfn = (bytes.fromhex(x).decode('utf-8', 'replace') for x in p[1:3])
        m = re.search(r'replaced=([\d,]*)', ctx.get('model_ans', ''))
        if not m: return None       # the model did not answer: reported as a disagreement
        R = set(int(x) for x in m.group(1).split(',') if x)
        if R != set(meta['literal']):
            return None             # model and generator differ: reported by the comparer (derive differs)
        if meta['zero']:
            if actual != '&' + selfn: return 'zero-ref: the ε-copy type of the zero-copy type %s is %s, not a reference to it' % (selfn, actual)
            return None
        pa, aa = split_generic_args(actual)
        ps, sa = split_generic_args(selfn)
        if pa != ps or len(aa) != len(sa): return 'eps-type-head: DeserType of %s is %s' % (selfn, actual)
        if meta.get('const_first'):
            # const arguments are printed first: bring both lists into the order (type arguments, const arguments)
            k0 = meta.get('ncp', 0)
            aa, sa = aa[k0:] + aa[:k0], sa[k0:] + sa[:k0]
        for i in range(len(sa)):
            changed = aa[i] != sa[i]
            if i >= meta['ntp']:
                if changed: return 'const-changed: const argument %d of %s changed in %s' % (i, selfn, actual)
            elif changed and i not in R:
                return 'replaced-nonliteral: parameter %d of %s is not the type of any field but is replaced in %s' % (i, selfn, actual)
            elif not changed and i in R and not meta['self_eps'][i]:
                return 'kept-literal: parameter %d of %s is the type of a field but is not replaced in %s' % (i, selfn, actual)
        return None
    if k == 'case':
        return o_c01(meta, ans, ctx) or o_c02(meta, ans, ctx)
    return None


_NCORPUS = sum(1 for _ in open(os.path.join(VERIF, 'corpus', 'v1', 'corpus.jsonl')))

SPECS = {
 'C17': C17Spec(o_c17, 'IS_ZERO_COPY and ZERO_COPY_MISMATCH of every type of the universe against the model constants; 15 probe programs obtained from a valid zero-copy definition by replacing one field (vector, string, boxed slice, option, array of vectors, deep structure, &\'static [u8], &\'static str, unbounded parameter), in structs, tuple structs and enums, dropping repr(C), repr(align) only, both attributes: each must be rejected by the ZeroCopy bound or the macro; a hand-written type marked zero-copy with IS_ZERO_COPY = false serialized alone and inside 17 containers: each attempt must panic with no byte of the value written; a control that a valid definition is written.'),
    'C05': C05Spec(o_c05, 'every derived type of the generated universe (definitions drawn from the grammar: named / tuple / unit structs, unit / tuple / struct variants, type / const / defaulted parameters, phantom parameters, bounds, where-clauses, zero / deep / no copy attribute, repr attributes, nesting of earlier definitions; several instantiations each): the program containing them must compile, the concrete DeserType (core::any::type_name) must be the documented substitution, the model derive of the definition must be the registered type, values round-trip in both modes; 7 accept programs for grammar features outside the generator (where-clause bounds, several bounds, defaulted parameters, visibilities, raw identifiers, doc comments, parameters passed to other derived types, unit / tuple structs) built and run.'),
    'C01': CaseSpec(o_c01, 'serialize each generated value, deserialize_full the bytes; generated types x boundary-biased values.'),
    'C02': CaseSpec(o_c02, 'serialize each generated value, deserialize_eps from a 128-aligned (and 64 mod 128) buffer and deserialize_full the same bytes.'),
    'C07': C07Spec(o_c07, 'layout of every zero-copy type; schema rows (real write_bytes/padding events) and byte counts for every generated value.'),
    'C10': CaseSpec(o_c10, 'every single-bit flip of the 29 fixed header bytes (all 232 for a quarter of the types in the quick tier, a sample of 48 for the others), the reversed cookie, minor/major/usize boundary values; both modes.'),
    'C11': C11Spec(o_c11, 'every cut point k in [0,len) of the streams of generated values (streams up to 400 bytes in the quick tier); both modes; files cut at 8 fixed and 4 (16) random points loaded through load_full, mmap, load_mem, load_mmap.'),
    'C12': CaseSpec(o_c12, 'every base residue 0..127 (all for half of the types with aligned blocks in the quick tier, 16 residues for the rest) x generated values; block list taken from the real schema.'),
    'C03': CaseSpec(o_c03, 'offsets of every borrowed part of real ε-copy results (pointer minus buffer start, printed by Show on the ε types) against the offsets of the writer blocks in the model; allocator calls and bytes during deserialize_eps for each value and for the same value with every borrowed payload repeated x4 and x16 (x2, x8, x64 thorough).'),
    'C06': CaseSpec(o_c06, 'golden corpus (NCORPUS files written by earlier builds for the fixed corpus universe: 227 at claim time, the others appended with the later stress definitions): re-serialization must reproduce the stored bytes, both deserializers must return the stored value, hash words must be the stored ones; plus bytes / hash feeds / digests of every generated type and value against the independent Lean encoder and XXH3 port.'),
    'C09': C09Spec(o_c09, 'failing loads (8 truncation points, corrupted magic / type hash, a foreign type, garbage) and succeeding loads, repeated 12 (40) times per loader under a counting global allocator and a /proc/self/maps count; 9 probe programs (one per access path) compiled against the working tree.'),
    'C04': C04Spec(o_c04, 'type and alignment feeds (recorded from the real type_hash / align_hash with a recording Hasher) and digests of every type of the universe, which contains for every definition without type parameters its near-miss mutants (field renamed, fields swapped, field retyped to a same-size type, copy kind toggled, repr/align changed, const renamed / value changed, variant renamed / reordered; vec / boxed slice / array / tuple variations); bytes of each type deserialized as its mutants and as other types (all near-miss pairs, 6000 sampled ordered pairs in the quick tier, all pairs in the thorough tier), both modes.'),
    'C08': C08Spec(o_c08, 'store + load_full / load_mem / load_mmap / mmap of generated values (all 8 flag sets for a quarter of the cases in the quick tier), file lengths of every residue modulo 64 (32 in the quick tier), region range through the hook, tail bytes read back, the case moved, boxed, read from 4 threads and sent to another thread; the load_full / load_mem cases again with the crate built without the mmap feature.'),
    'C18': CaseSpec(o_c18, 'serialize_with_schema of every generated value: bytes versus the plain writer, rows versus the model forest, pre-order / tiling / in-stream / zero padding / alignment invariants on the real rows, to_csv and debug under catch_unwind.'),
    'C13': CaseSpec(o_c13, 'failure at every position k in [0,len] (all k for a fifth of the types in the quick tier, boundary and sampled k for the rest) with random per-call caps and Interrupted patterns, splitting/retrying writers, flush failure, BufWriter over /dev/full; slice references and structures holding them with the allocator protecting the borrowed buffer.'),
    'C14': CaseSpec(o_c14, '10 fragmentation patterns (1-byte, prime-sized, mixed, pseudo-random, with Interrupted, through BufReader) and failure (error or end of file) at positions k in [0,len) for generated values.'),
    'C16': CaseSpec(o_c16, 'for 13+ element types (zero-copy and deep, built-in and derived): the vector, the slice reference, the SerIter wrapper and a generic structure holding each, on empty and generated sequences; lying iterators for all (announced, actual) pairs <= 6 and larger ones.'),
    'C19': CaseSpec(o_c19, 'every history of length <= 3 (quick; <= 4 thorough) over an alphabet of 12 (14) operations on AlignedCursor<A16>, plus long random histories for A16/A32/A64; the same history on std::io::Cursor<Vec<u8>>; both models tied.'),
    'C15': C15Spec(o_c15, 'every tag position of every generated value (found through the real schema): byte tags set to 11 boundary values or all 256, enum tag words set to boundary values; both modes.'),
}
SPECS['C06'].rule = SPECS['C06'].rule.replace('NCORPUS', str(_NCORPUS))
